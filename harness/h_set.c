/* Correspondence harness for src/set.c (C19).  Links /repo's set.c and common.c unmodified.
 * Reads one operation per line, prints one canonical result line per observation.
 *   mode int|str        choose comparator (set_compare_int / set_compare_charp); resets
 *   reset               drop everything (no disposal lines printed), restart tags at 0
 *   ins K | find K | lower K | rem K ND | clear ND | show | iter
 * Every element carries a unique tag so that "which element" is observable.
 */
#include "src/common.h"
struct event_base *ev_base; struct evdns_base *ev_dns; int clean_exit;

struct el { union { int key; char *name; } u; int tag; char buf[40]; };
static int strmode;
static int quiet;

static const char *kstr(struct el *e) { static char b[48]; if (strmode) return e->u.name; snprintf(b, sizeof b, "%d", e->u.key); return b; }
static void cleanup(void *p) { struct el *e = p; if (!quiet) printf("dispose %s#%d\n", kstr(e), e->tag); }

static struct set *s;
static int tag;
/* nodes taken out without disposal are kept and REUSED by later insertions, so that stale links in a node are exercised */
static struct set_node *pool[65536]; static unsigned npool; static int reuse = 1;

static void setkey(struct el *e, const char *k)
{
    if (strmode) { snprintf(e->buf, sizeof e->buf, "%s", k); e->u.name = e->buf; }
    else e->u.key = (int)strtol(k, NULL, 10);
}

static void shape(struct set_node *n)
{
    if (!n) { putchar('.'); return; }
    putchar('('); shape(n->l); printf("%s#%d", kstr(set_node_data(n)), ((struct el*)set_node_data(n))->tag); shape(n->r); putchar(')');
}

/* structural audit: search order, chain == in-order walk, prev links, count */
static struct set_node *walk_prev; static unsigned walk_n; static int audit_bad;
static void walk(struct set_node *n)
{
    if (!n) return;
    walk(n->l);
    if (n->prev != walk_prev) audit_bad |= 1;
    if (walk_prev && walk_prev->next != n) audit_bad |= 2;
    if (walk_prev && s->compare(set_node_data(walk_prev), set_node_data(n)) >= 0) audit_bad |= 4;
    walk_prev = n; walk_n++;
    walk(n->r);
}
static void show(void)
{
    struct set_node *n, *prev = NULL; unsigned cnt = 0;
    printf("shape "); shape(s->root); putchar('\n');
    printf("chain ");
    for (n = set_first(s); n; prev = n, n = set_next(n), cnt++) {
        struct el *e = set_node_data(n);
        if (cnt > set_size(s) + 3) { printf("CYCLE "); break; }   /* a corrupted chain must not run away */
        if (set_prev(n) != prev) printf("BADPREV ");
        printf("%s#%d ", kstr(e), e->tag);
    }
    printf("| count=%u\n", set_size(s));
    walk_prev = NULL; walk_n = 0; audit_bad = 0; walk(s->root);
    if (walk_prev && walk_prev->next) audit_bad |= 8;
    if (walk_n != set_size(s) || cnt != walk_n) audit_bad |= 16;
    printf("audit %d\n", audit_bad);
}

static void fresh(void)
{
    if (s) { quiet = 1; set_clear(s, 0); quiet = 0; free(s); }
    s = set_alloc(strmode ? set_compare_charp : set_compare_int, cleanup);
    tag = 0;
}

int main(void)
{
    setvbuf(stdout, NULL, _IOLBF, 0);
    char line[256];
    fresh();
    while (fgets(line, sizeof line, stdin)) {
        char cmd[16], k[64]; int nd = 0; struct el probe; int nf;
        k[0] = 0;
        nf = sscanf(line, "%15s %63s %d", cmd, k, &nd);
        if (nf < 1) continue;
        memset(&probe, 0, sizeof probe); probe.tag = -1; setkey(&probe, k);
        if (!strcmp(cmd, "mode")) { strmode = !strcmp(k, "str"); fresh(); }
        else if (!strcmp(cmd, "reset")) { fresh(); printf("reset\n"); }
        else if (!strcmp(cmd, "ins")) {
            struct set_node *n = (reuse && npool) ? pool[--npool] : set_node_alloc(sizeof(struct el)); struct el *e = set_node_data(n);
            setkey(e, k); e->tag = ++tag; set_insert(s, n); printf("ins\n");
        } else if (!strcmp(cmd, "find")) {
            struct el *e = set_find(s, &probe); if (e) printf("find %s#%d\n", kstr(e), e->tag); else printf("find none\n");
        } else if (!strcmp(cmd, "lower")) {
            struct set_node *n = set_lower(s, &probe);
            if (n) { struct el *e = set_node_data(n); printf("lower %s#%d\n", kstr(e), e->tag); } else printf("lower none\n");
        } else if (!strcmp(cmd, "rem")) {
            int r; struct set_node *n;
            { unsigned guard = 0; for (n = set_first(s); n && guard <= set_size(s) + 3; n = set_next(n), guard++) if (!s->compare(&probe, set_node_data(n))) break; if (guard > set_size(s) + 3) n = NULL; }
            r = set_remove(s, &probe, nd); printf("rem %d\n", r);
            if (r && nd && n) { if (npool < 65536) pool[npool++] = n; else free(n); }   /* with no_dispose the caller owns the node */
        } else if (!strcmp(cmd, "clear")) {
            nd = atoi(k);
            if (nd) {
                struct set_node *n = set_first(s), *nx; struct set_node **keep = xmalloc((set_size(s) + 1) * sizeof(*keep)); unsigned c = 0, i;
                for (; n && c < set_size(s); n = nx) { nx = set_next(n); keep[c++] = n; }
                set_clear(s, 1); for (i = 0; i < c; i++) { if (npool < 65536) pool[npool++] = keep[i]; else free(keep[i]); } free(keep);
            } else set_clear(s, 0);
            printf("clear\n");
        } else if (!strcmp(cmd, "show")) show();
    }
    quiet = 1; set_clear(s, 0); free(s);
    while (npool) free(pool[--npool]);
    return 0;
}
