/* Correspondence harness for modules/iauth_misc.c (C12, C13): irc_ntop, irc_pton, irc_check_mask and the C library parsers. */
#include "modules/iauth.h"
#include <arpa/inet.h>
struct event_base *ev_base; struct evdns_base *ev_dns; int clean_exit;
static int unhex(const char *h, unsigned char *out, int max) {
    int n = 0; unsigned v;
    while (h[0] && h[1] && n < max) { sscanf(h, "%2x", &v); out[n++] = v; h += 2; }
    return n;
}
static void put_addr(const unsigned char *a) { int i; for (i = 0; i < 16; i++) printf("%02x", a[i]); }
/* the "standard library parser": inet_pton(AF_INET6), else inet_pton(AF_INET) mapped */
static int std_pton(const char *text, unsigned char *b16) {
    unsigned char v4[4];
    if (inet_pton(AF_INET6, text, b16) == 1) return 1;
    if (inet_pton(AF_INET, text, v4) == 1) { memset(b16, 0, 10); b16[10] = b16[11] = 0xff; memcpy(b16 + 12, v4, 4); return 2; }
    return 0;
}
int main(void) {
    setvbuf(stdout, NULL, _IOLBF, 0);
    static char line[16384];
    ctype_init();
    while (fgets(line, sizeof line, stdin)) {
        static char a1[8300]; char cmd[16], a2[64]; unsigned n1 = 0, n2 = 0;
        line[strcspn(line, "\n")] = 0;
        if (sscanf(line, "%15s", cmd) != 1) continue;
        if (!strcmp(cmd, "ntop")) {
            irc_inaddr a; char *text = malloc(IRC_NTOP_MAX); unsigned r; unsigned char b16[16]; int ok;
            irc_inaddr back; unsigned rb; char *text2 = malloc(IRC_NTOP_MAX);
            sscanf(line, "%*s %8299s", a1); unhex(a1, a.in6_8, 16);
            memset(text, 0x7f, IRC_NTOP_MAX);
            r = irc_ntop(text, IRC_NTOP_MAX, &a);
            ok = r < IRC_NTOP_MAX ? std_pton(text, b16) : 0;
            printf("ntop %u %s std=%d ", r, r < IRC_NTOP_MAX ? text : "(overflow)", ok);
            if (ok) put_addr(b16);
            /* own parser on own output, and idempotence of parse-print */
            memset(&back, 0xee, sizeof back);
            rb = r < IRC_NTOP_MAX ? irc_pton(&back, NULL, text, 0) : 0;
            printf(" own=%u ", rb); put_addr(back.in6_8);
            if (rb) { irc_ntop(text2, IRC_NTOP_MAX, &back); printf(" again=%s", text2); }
            putchar('\n'); free(text); free(text2);
        } else if (!strcmp(cmd, "pton")) {
            /* pton <usebits> <allow_trailing> <hex of string>; the string lives in an exactly-sized heap block so ASan sees overruns */
            irc_inaddr a; unsigned bits = 777, r; unsigned char *s; int len; unsigned char b16[16]; int ok;
            a1[0] = 0;
            sscanf(line, "%*s %u %u %8299s", &n1, &n2, a1);
            s = malloc(strlen(a1) / 2 + 1); len = unhex(a1, s, strlen(a1) / 2); s[len] = 0;
            memset(&a, 0, sizeof a);
            r = irc_pton(&a, n1 ? &bits : NULL, (char*)s, n2);
            printf("pton %u %u ", r, bits); put_addr(a.in6_8);
            ok = std_pton((char*)s, b16);
            printf(" std=%d ", ok); if (ok) put_addr(b16);
            putchar('\n'); free(s);
        } else if (!strcmp(cmd, "mask")) {
            irc_inaddr a, m; sscanf(line, "%*s %8299s %63s %u", a1, a2, &n1);
            unhex(a1, a.in6_8, 16); unhex(a2, m.in6_8, 16);
            printf("mask %u\n", irc_check_mask(&a, &m, n1));
        }
    }
    return 0;
}
