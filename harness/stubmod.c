/* Stub module for C20: logs constructor begin/end, post-init and destructor to the file named by $STUBLOG and declares the
 * dependencies listed (comma separated) in $STUBDEPS_<name>.  Built once per name (-DSTUBNAME="m0" ...), so that N shared objects
 * serve every dependency graph. */
#include "src/common.h"

#ifndef STUBNAME
#define STUBNAME "m0"
#endif

static void logev(const char *what)
{
    const char *fn = getenv("STUBLOG");
    FILE *f = fn ? fopen(fn, "a") : NULL;
    if (f) { fprintf(f, "%s %s\n", what, STUBNAME); fclose(f); }
}

void module_constructor(const char *name)
{
    const char *deps = getenv("STUBDEPS_" STUBNAME);
    char buf[256], *tok, *save = NULL;
    (void)name;
    logev("CB");
    if (deps) {
        snprintf(buf, sizeof buf, "%s", deps);
        for (tok = strtok_r(buf, ",", &save); tok; tok = strtok_r(NULL, ",", &save))
            module_depends(strdup(tok), NULL);     /* the name must outlive this call: module.c keeps the pointer */
    }
    deps = getenv("STUBANTI_" STUBNAME);       /* modules this one is a back-end provider for (module_antidepends) */
    if (deps) {
        snprintf(buf, sizeof buf, "%s", deps);
        for (tok = strtok_r(buf, ",", &save); tok; tok = strtok_r(NULL, ",", &save))
            module_antidepends(strdup(tok), NULL);
    }
    if (getenv("STUBBACKEND_" STUBNAME))       /* a back end of the core: unloaded after every ordinary module */
        module_is_backend();
    logev("CE");
}

void module_post_init(struct module *self)
{
    (void)self;
    logev("PI");
}

void module_destructor(void)
{
    logev("DT");
}
