/* Correspondence harness for src/log.c (C18): registers three facilities, loads configuration files (reloads), and emits one
 * message per facility x severity (debug..error; fatal would terminate the process) carrying a token. */
#include "src/common.h"
struct event_base *ev_base; struct evdns_base *ev_dns; int clean_exit;
int main(int argc, char **argv) {
    char line[1024]; const char *facs[] = { "fa", "fb", "core" }; struct log_type *lt[3]; int i;
    (void)argc; (void)argv;
    setvbuf(stdout, NULL, _IOLBF, 0);
    ctype_init();
    log_core = log_type_register("core", NULL);
    log_set_verbosity(0);
    for (i = 0; i < 3; i++) lt[i] = log_type_register(facs[i], NULL);
    while (fgets(line, sizeof line, stdin)) {
        line[strcspn(line, "\n")] = 0;
        if (!strncmp(line, "load ", 5)) printf("LOAD %s\n", conf_read(line + 5) ? "ERR" : "OK");
        else if (!strncmp(line, "emit ", 5)) {
            int s;
            for (i = 0; i < 3; i++) for (s = 0; s < LOG_FATAL; s++) log_message(lt[i], s, "%s %s %d", line + 5, facs[i], s);
            puts("EMIT");
        }
    }
    return 0;
}
