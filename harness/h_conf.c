/* Throw-away harness: drive src/config.c (unmodified, linked from the tree) from stdin.
 * Commands (one per line):
 *   reg obj <path>
 *   reg str <path> <subtype 0..5> <default|->
 *   reg list <path> [defaults...]
 *   reg ina <path> <host|-> <svc|->
 *   load <file>
 *   dump
 * Paths are a/b/c; parents must be registered objects.
 */
#include "src/common.h"

struct event_base *ev_base;
struct evdns_base *ev_dns;
int clean_exit;

static void path_of(struct conf_node_base *n, char *buf, size_t len)
{
    if (n->parent && n->parent->base.parent) {
        path_of(&n->parent->base, buf, len);
        strncat(buf, "/", len - strlen(buf) - 1);
    } else if (!n->parent) {
        buf[0] = '\0';
        return;
    }
    strncat(buf, n->name, len - strlen(buf) - 1);
}

static void hook(struct conf_node_base *n)
{
    char buf[512] = "";
    path_of(n, buf, sizeof buf);
    printf("HOOK %d %s\n", n->type, buf);
}

static void put_str(const char *s)
{
    if (!s) { fputs("(null)", stdout); return; }
    putchar('"');
    for (; *s; ++s) {
        unsigned char c = *s;
        if (c < 32 || c > 126 || c == '"' || c == '\\') printf("\\x%02x", c);
        else putchar(c);
    }
    putchar('"');
}

static void dump(struct conf_node_object *obj, int depth)
{
    struct set_node *it;
    for (it = set_first(&obj->contents); it; it = set_next(it)) {
        struct conf_node_base *b = set_node_data(it);
        unsigned int ii;
        printf("%*s", depth * 2, "");
        put_str(b->name);
        printf(" k%d s%d p%d ", b->type, b->specified, b->present);
        switch (b->type) {
        case CONF_STRING: {
            struct conf_node_string *s = (void*)b;
            put_str(s->value);
            printf(" sub%d ", s->subtype);
            if (!b->specified) fputs("-", stdout);
            else switch (s->subtype) {
            case CONF_STRING_PLAIN: put_str(s->parsed.p_string); break;
            case CONF_STRING_FLOAT: printf("%g", s->parsed.p_double); break;
            case CONF_STRING_BOOLEAN: case CONF_STRING_INTEGER: printf("%d", s->parsed.p_integer); break;
            default: printf("%u", s->parsed.p_interval); break;
            }
            putchar('\n');
            break;
        }
        case CONF_INADDR: {
            struct conf_node_inaddr *s = (void*)b;
            put_str(s->hostname); putchar(' '); put_str(s->service); putchar('\n');
            break;
        }
        case CONF_STRING_LIST: {
            struct conf_node_string_list *s = (void*)b;
            putchar('(');
            for (ii = 0; ii < s->value.used; ++ii) { if (ii) putchar(','); put_str(s->value.vec[ii]); }
            puts(")");
            break;
        }
        case CONF_OBJECT:
            puts("{");
            dump((void*)b, depth + 1);
            printf("%*s}\n", depth * 2, "");
            break;
        }
    }
}

static void hook_all(struct conf_node_base *b)
{
    b->hook = hook;
    if (b->type == CONF_OBJECT) {
        struct set_node *it;
        for (it = set_first(&((struct conf_node_object *)b)->contents); it; it = set_next(it))
            hook_all(set_node_data(it));
    }
}

static struct conf_node_object *find_parent(char *path, char **leaf)
{
    struct conf_node_object *obj = NULL; /* NULL = root */
    char *slash;
    while ((slash = strchr(path, '/')) != NULL) {
        *slash = '\0';
        obj = conf_register_object(obj, path); /* re-registering is idempotent */
        path = slash + 1;
    }
    *leaf = path;
    return obj;
}

int main(void)
{
    char line[4096];
    setvbuf(stdout, NULL, _IOLBF, 0);
    ctype_init();
    log_core = log_type_register("core", NULL);
    log_set_verbosity(0);
    while (fgets(line, sizeof line, stdin)) {
        char *argv[16]; int argc = 0; char *tok;
        line[strcspn(line, "\n")] = '\0';
        for (tok = strtok(line, " "); tok && argc < 16; tok = strtok(NULL, " ")) argv[argc++] = tok;
        if (argc == 0) continue;
        if (!strcmp(argv[0], "load") && argc == 2) {
            int res = conf_read(argv[1]);
            printf("LOAD %s\n", res ? "ERR" : "OK");
        } else if (!strcmp(argv[0], "hookall")) {
            /* attach the logging hook to every node (as log.c does for the children of its section), except the logs section */
            struct set_node *it;
            for (it = set_first(&conf_get_root()->contents); it; it = set_next(it)) {
                struct conf_node_base *b = set_node_data(it);
                if (!strcasecmp(b->name, "logs")) continue;
                hook_all(b);
            }
            puts("REG");
        } else if (!strcmp(argv[0], "dump")) {
            dump(conf_get_root(), 0);
            puts("END");
        } else if (!strcmp(argv[0], "reg") && argc >= 3) {
            char *leaf; struct conf_node_object *par = find_parent(argv[2], &leaf);
            if (!strcmp(argv[1], "obj")) {
                struct conf_node_object *o = conf_register_object(par, leaf);
                o->base.hook = hook;
            } else if (!strcmp(argv[1], "str") && argc >= 5) {
                struct conf_node_string *s = conf_register_string(par, atoi(argv[3]), strdup(leaf), strcmp(argv[4], "-") ? strdup(argv[4]) : NULL);
                s->base.hook = hook;
            } else if (!strcmp(argv[1], "list")) {
                struct string_vector sv; int ii; struct conf_node_string_list *l;
                string_vector_wipe(&sv);
                for (ii = 3; ii < argc; ++ii) string_vector_append(&sv, argv[ii]);
                l = conf_register_string_list_sv(par, leaf, &sv);
                l->base.hook = hook;
                free(sv.vec);
            } else if (!strcmp(argv[1], "ina") && argc >= 5) {
                struct conf_node_inaddr *a = conf_register_inaddr(par, leaf, strcmp(argv[3], "-") ? strdup(argv[3]) : NULL, strcmp(argv[4], "-") ? strdup(argv[4]) : NULL);
                a->base.hook = hook;
            }
            puts("REG");
        }
    }
    return 0;
}
