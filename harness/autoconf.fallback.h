/* autoconf.h.  Generated from autoconf.h.in by configure.  */
/* autoconf.h.in.  Generated from configure.ac by autoheader.  */

/* Define to 1 if you have the <arpa/inet.h> header file. */
#define HAVE_ARPA_INET_H 1

/* Define to 1 if you have the `atoi' function. */
#define HAVE_ATOI 1

/* Define to 1 if you have the `closedir' function. */
#define HAVE_CLOSEDIR 1

/* Define to 1 if you have the <dirent.h> header file. */
#define HAVE_DIRENT_H 1

/* Define to 1 if you have the <dlfcn.h> header file. */
#define HAVE_DLFCN_H 1

/* Define if <evutil.h> defines evutil_socket_t */
#define HAVE_EVUTIL_SOCKET_T 1

/* Define to 1 if you have the <fcntl.h> header file. */
#define HAVE_FCNTL_H 1

/* Define to 1 if you have the `fnmatch' function. */
#define HAVE_FNMATCH 1

/* Define to 1 if you have the <fnmatch.h> header file. */
#define HAVE_FNMATCH_H 1

/* Define to 1 if you have the `ftime' function. */
#define HAVE_FTIME 1

/* Define to 1 if you have the `gettimeofday' function. */
#define HAVE_GETTIMEOFDAY 1

/* Define to 1 if you have the `gmtime' function. */
#define HAVE_GMTIME 1

/* Define to 1 if you have the `gmtime_r' function. */
#define HAVE_GMTIME_R 1

/* Define to 1 if you have the <inttypes.h> header file. */
#define HAVE_INTTYPES_H 1

/* Define to 1 if you have the `dl' library (-ldl). */
#define HAVE_LIBDL 1

/* Define to 1 if you have the `rt' library (-lrt). */
#define HAVE_LIBRT 1

/* Define to 1 if you have the `socket' library (-lsocket). */
/* #undef HAVE_LIBSOCKET */

/* Define to 1 if you have the <netdb.h> header file. */
#define HAVE_NETDB_H 1

/* Define to 1 if you have the <netinet/in.h> header file. */
#define HAVE_NETINET_IN_H 1

/* Define to 1 if you have the `opendir' function. */
#define HAVE_OPENDIR 1

/* Define to 1 if you have the `readdir' function. */
#define HAVE_READDIR 1

/* Define to 1 if you have the `regcomp' function. */
#define HAVE_REGCOMP 1

/* Define to 1 if you have the `regexec' function. */
#define HAVE_REGEXEC 1

/* Define to 1 if you have the <regex.h> header file. */
#define HAVE_REGEX_H 1

/* Define to 1 if you have the `regfree' function. */
#define HAVE_REGFREE 1

/* Define to 1 if you have the `sigaction' function. */
#define HAVE_SIGACTION 1

/* Define if struct sockaddr has sa_len field */
/* #undef HAVE_SOCKADDR_SA_LEN */

/* Define to 1 if you have the `socket' function. */
#define HAVE_SOCKET 1

/* Define to 1 if you have the <stddef.h> header file. */
#define HAVE_STDDEF_H 1

/* Define to 1 if you have the <stdint.h> header file. */
#define HAVE_STDINT_H 1

/* Define to 1 if you have the <stdio.h> header file. */
#define HAVE_STDIO_H 1

/* Define to 1 if you have the <stdlib.h> header file. */
#define HAVE_STDLIB_H 1

/* Define to 1 if you have the `strerror' function. */
#define HAVE_STRERROR 1

/* Define to 1 if you have the <strings.h> header file. */
#define HAVE_STRINGS_H 1

/* Define to 1 if you have the <string.h> header file. */
#define HAVE_STRING_H 1

/* Define to 1 if you have the `strlcat' function. */
/* #undef HAVE_STRLCAT */

/* Define to 1 if you have the `strlcpy' function. */
/* #undef HAVE_STRLCPY */

/* Define to 1 if you have the `strsignal' function. */
#define HAVE_STRSIGNAL 1

/* Define to 1 if you have the `strtok_r' function. */
#define HAVE_STRTOK_R 1

/* Define if struct addrinfo declared */
#define HAVE_STRUCT_ADDRINFO /**/

/* Define if struct sockaddr_storage declared */
#define HAVE_STRUCT_SOCKADDR_STORAGE /**/

/* Define to 1 if you have the `sysconf' function. */
#define HAVE_SYSCONF 1

/* Define to 1 if you have the <sys/epoll.h> header file. */
#define HAVE_SYS_EPOLL_H 1

/* Define to 1 if you have the <sys/select.h> header file. */
#define HAVE_SYS_SELECT_H 1

/* Define to 1 if you have the <sys/socket.h> header file. */
#define HAVE_SYS_SOCKET_H 1

/* Define to 1 if you have the <sys/stat.h> header file. */
#define HAVE_SYS_STAT_H 1

/* Define to 1 if you have the <sys/timeb.h> header file. */
#define HAVE_SYS_TIMEB_H 1

/* Define to 1 if you have the <sys/times.h> header file. */
#define HAVE_SYS_TIMES_H 1

/* Define to 1 if you have the <sys/time.h> header file. */
#define HAVE_SYS_TIME_H 1

/* Define to 1 if you have the <sys/types.h> header file. */
#define HAVE_SYS_TYPES_H 1

/* Define to 1 if you have the <sys/wait.h> header file. */
#define HAVE_SYS_WAIT_H 1

/* Define to 1 if you have the <unistd.h> header file. */
#define HAVE_UNISTD_H 1

/* Define if we have va_copy */
#define HAVE_VA_COPY 1

/* Define to 1 if you have the `vsnprintf' function. */
#define HAVE_VSNPRINTF 1

/* Define if we have __va_copy */
#define HAVE___VA_COPY 1

/* Define to the sub-directory where libtool stores uninstalled libraries. */
#define LT_OBJDIR ".libs/"

/* Name of package */
#define PACKAGE "iauthd-c"

/* Define to the address where bug reports for this package should be sent. */
#define PACKAGE_BUGREPORT "coder-com@undernet.org"

/* Define to the full name of this package. */
#define PACKAGE_NAME "iauthd-c"

/* Define to the full name and version of this package. */
#define PACKAGE_STRING "iauthd-c 1.0.5"

/* Define to the one symbol short name of this package. */
#define PACKAGE_TARNAME "iauthd-c"

/* Define to the home page for this package. */
#define PACKAGE_URL ""

/* Define to the version of this package. */
#define PACKAGE_VERSION "1.0.5"

/* Define to 1 if all of the C90 standard headers exist (not just the ones
   required in a freestanding environment). This macro is provided for
   backward compatibility; new code need not use it. */
#define STDC_HEADERS 1

/* Define to 1 if you can safely include both <sys/time.h> and <time.h>. This
   macro is obsolete. */
#define TIME_WITH_SYS_TIME 1

/* Define to 1 if your <sys/time.h> declares `struct tm'. */
/* #undef TM_IN_SYS_TIME */

/* Version number of package */
#define VERSION "1.0.5"

/* Define to empty if `const' does not conform to ANSI C. */
/* #undef const */

/* Define to `__inline__' or `__inline' if that's what the C compiler
   calls it, or to nothing if 'inline' is not supported under any name.  */
#ifndef __cplusplus
/* #undef inline */
#endif
