(* Driver for the extracted IAuth model (C01-C11, C17).  Reads a case file:
     CASE <with_xq 0/1> <timeout 0/1>
     S <TAB> name <TAB> type                      initial service entries, in configuration order
     R <TAB> name <TAB> class|- <TAB> account|- <TAB> address|- <TAB> username|- <TAB> hostname|- <TAB> xreply_ok|- <TAB> trust(0/1)
     L <TAB> hex-of-raw-line                      one input line (without the newline)
     RL <TAB> timeout(0/1)                        a successful reload: followed by its S and R lines, closed by RE
     END
   Prints, per step: the rendered output lines, then "--<in use>"; each case is closed by "==". *)
open Iauth_model
let b_of_char (c : char) : byte = Obj.magic (Char.code c)
let char_of_b (b : byte) : char = Char.chr (Obj.magic b : int)
let explode s = List.init (String.length s) (fun i -> b_of_char s.[i])
let implode l = let b = Buffer.create 64 in List.iter (fun x -> Buffer.add_char b (char_of_b x)) l; Buffer.contents b
let rec int_of_nat = function O -> 0 | S n -> 1 + int_of_nat n
let split_tab s = String.split_on_char '\t' s
let opt s = if s = "-" then None else Some (explode s)
let unhex hx = List.init (String.length hx / 2) (fun i -> b_of_char (Char.chr (int_of_string ("0x" ^ String.sub hx (2*i) 2))))
let mkrule = function
  | [n; k; a; ad; u; h; x; tr] ->
      { r_name = explode n; r_class = opt k; r_acct = opt a;
        r_addr = (match opt ad with None -> None | Some s -> rule_addr s);
        r_user = opt u; r_host = opt h; r_xok = opt x; r_trust = (tr = "1") }
  | _ -> failwith "bad rule line"
let () =
  let ic = if Array.length Sys.argv > 1 then open_in Sys.argv.(1) else stdin in
  let rec cases () =
    match input_line ic with
    | exception End_of_file -> ()
    | hdr ->
      let h = String.split_on_char ' ' hdr in
      let xq = (List.nth h 1) = "1" and tm = (List.nth h 2) = "1" in
      let svcs = ref [] and rules = ref [] and evs = ref [] in
      let rec tables sv ru =
        let l = input_line ic in
        match split_tab l with
        | "S" :: n :: t :: [] -> tables ((explode n, explode t) :: sv) ru
        | "R" :: rest -> tables sv (mkrule rest :: ru)
        | ["RE"] -> (List.rev sv, List.rev ru)
        | _ -> failwith ("bad reload line " ^ l) in
      let rec body () =
        let l = input_line ic in
        if l = "END" then () else begin
          (match split_tab l with
           | "S" :: n :: t :: [] -> svcs := (explode n, explode t) :: !svcs
           | "R" :: rest -> rules := mkrule rest :: !rules
           | "L" :: hx :: [] -> evs := RLine (unhex hx) :: !evs
           | "L" :: [] -> evs := RLine [] :: !evs
           | "RL" :: t :: [] -> let (sv, ru) = tables [] [] in evs := RReload (sv, ru, t = "1") :: !evs
           | _ -> failwith ("bad line " ^ l));
          body () end in
      body ();
      let c = xq in
      let s0 = init c (List.rev !svcs) (List.rev !rules) tm in
      let outs = run_revs c s0 (List.rev !evs) in
      List.iter (fun (o, n) -> List.iter (fun l -> print_endline (implode (render l))) o; Printf.printf "--%d\n" (int_of_nat n)) outs;
      print_endline "==";
      cases () in
  cases ()
