(* Driver for the extracted log routing model (C18).  stdin: one section per line, "SEC<TAB>name=dest,dest<TAB>name=dest..."
   (entries in configuration order; the split is at the LAST '=' because names may contain '=').  Prints the routing table for the
   facilities fa, fb, core and severities 0..4 as "fa.0=d,d;fa.1=...". *)
open Log_model
let b_of_char (c : char) : byte = Obj.magic (Char.code c)
let char_of_b (b : byte) : char = Char.chr (Obj.magic b : int)
let explode s = List.init (String.length s) (fun i -> b_of_char s.[i])
let implode l = let b = Buffer.create 64 in List.iter (fun x -> Buffer.add_char b (char_of_b x)) l; Buffer.contents b
let rec int_of_nat = function O -> 0 | S n -> 1 + int_of_nat n
let () =
  try while true do
    let l = input_line stdin in
    match String.split_on_char '\t' l with
    | "SEC" :: ents ->
        let sec = List.filter_map (fun e -> if e = "" then None else
                    let i = String.rindex e '=' in
                    let name = String.sub e 0 i and ds = String.sub e (i + 1) (String.length e - i - 1) in
                    Some (explode name, List.map explode (List.filter (fun x -> x <> "") (String.split_on_char ',' ds)))) ents in
        let tab = route_table sec [explode "fa"; explode "fb"; explode "core"] in
        print_endline (String.concat ";" (List.map (fun ((f, s), ds) -> Printf.sprintf "%s.%d=%s" (implode f) (int_of_nat s) (String.concat "," (List.map implode ds))) tab))
    | _ -> print_endline "?"
  done with End_of_file -> ()
