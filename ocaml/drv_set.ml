(* Driver for the extracted set model (C19).
   drv_set run            : stdin = script (ins/find/lower/rem/clear/show/reset), stdout = canonical lines like harness/h_set
   drv_set explore U      : breadth-first exploration of every reachable (tree shape, key set) over keys 0..U-1;
                            prints a script that reaches every state and tries every operation from it *)
open Set_model
let rec int_of_pos = function XH -> 1 | XO p -> 2 * int_of_pos p | XI p -> 2 * int_of_pos p + 1
let int_of_z = function Z0 -> 0 | Zpos p -> int_of_pos p | Zneg p -> - (int_of_pos p)
let int_of_n = function N0 -> 0 | Npos p -> int_of_pos p
let rec pos_of_int n = if n = 1 then XH else if n land 1 = 0 then XO (pos_of_int (n lsr 1)) else XI (pos_of_int (n lsr 1))
let z_of_int n = if n = 0 then Z0 else if n > 0 then Zpos (pos_of_int n) else Zneg (pos_of_int (-n))
let rec int_of_nat = function O -> 0 | S n -> 1 + int_of_nat n
let el (k, t) = Printf.sprintf "%d#%d" (int_of_z k) (int_of_n t)
let rec shape = function Leaf -> "." | Node (l, k, r) -> "(" ^ shape l ^ el k ^ shape r ^ ")"
let rec kshape = function Leaf -> "." | Node (l, (k, _), r) -> "(" ^ kshape l ^ string_of_int (int_of_z k) ^ kshape r ^ ")"

let parse l =
  match String.split_on_char ' ' (String.trim l) with
  | ["ins"; k] -> Some (OIns (z_of_int (int_of_string k)))
  | ["find"; k] -> Some (OFind (z_of_int (int_of_string k)))
  | ["lower"; k] -> Some (OLower (z_of_int (int_of_string k)))
  | ["rem"; k; nd] -> Some (ORem (z_of_int (int_of_string k), nd = "1"))
  | ["clear"; nd] -> Some (OClear (nd = "1"))
  | ["show"] -> Some OShow
  | _ -> None

let print_out = function
  | XIns -> print_endline "ins"
  | XFind None -> print_endline "find none" | XFind (Some e) -> print_endline ("find " ^ el e)
  | XLower None -> print_endline "lower none" | XLower (Some e) -> print_endline ("lower " ^ el e)
  | XRem b -> print_endline (if b then "rem 1" else "rem 0")
  | XClear -> print_endline "clear"
  | XDispose e -> print_endline ("dispose " ^ el e)
  | XShow (t, c, n) ->
      print_endline ("shape " ^ shape t);
      print_endline ("chain " ^ String.concat "" (List.map (fun e -> el e ^ " ") c) ^ Printf.sprintf "| count=%d" (int_of_nat n));
      print_endline "audit 0"

let run () =
  let st = ref init in
  (try while true do
    let l = input_line stdin in
    if String.trim l = "reset" then (st := init; print_endline "reset")
    else match parse l with
    | Some o -> let (st', outs) = step !st o in st := st'; List.iter print_out outs
    | None -> ()
  done with End_of_file -> ())

let opstr = function
  | OIns k -> Printf.sprintf "ins %d" (int_of_z k) | OFind k -> Printf.sprintf "find %d" (int_of_z k)
  | OLower k -> Printf.sprintf "lower %d" (int_of_z k) | ORem (k, nd) -> Printf.sprintf "rem %d %d" (int_of_z k) (if nd then 1 else 0)
  | OClear nd -> Printf.sprintf "clear %d" (if nd then 1 else 0) | OShow -> "show"

let explore u =
  let seen = Hashtbl.create 100000 in
  let q = Queue.create () in
  let ops = List.concat (List.init u (fun k -> let z = z_of_int k in [OIns z; OFind z; OLower z; ORem (z, false); ORem (z, true)])) @ [OClear false; OClear true] in
  let key ((s, _) : (set * n)) = kshape s.root in
  Hashtbl.add seen (key init) (); Queue.add (init, []) q;
  let states = ref 0 and trans = ref 0 in
  while not (Queue.is_empty q) do
    let (st, path) = Queue.pop q in
    incr states;
    (* one script segment per state: reach it, then try every operation from it, re-reaching it in between *)
    List.iter (fun o ->
      incr trans;
      print_endline "reset";
      List.iter (fun p -> print_endline (opstr p)) (List.rev path);
      print_endline (opstr o); print_endline "show";
      let (st', _) = step st o in
      let k = key st' in
      if not (Hashtbl.mem seen k) then (Hashtbl.add seen k (); Queue.add (st', o :: path) q)) ops
  done;
  Printf.eprintf "states=%d transitions=%d\n" !states !trans

let () =
  match Array.to_list Sys.argv with
  | [_; "run"] -> run ()
  | [_; "explore"; u] -> explore (int_of_string u)
  | _ -> prerr_endline "usage: drv_set run | explore U"; exit 2
