(* Driver for the extracted address model (C12, C13): same line protocol as harness/h_addr *)
open Addr_model
let b_of_int (c : int) : byte = Obj.magic c
let int_of_b (b : byte) : int = (Obj.magic b : int)
let rec pos_of_int n = if n = 1 then XH else if n land 1 = 0 then XO (pos_of_int (n lsr 1)) else XI (pos_of_int (n lsr 1))
let n_of_int n = if n = 0 then N0 else Npos (pos_of_int n)
let rec int_of_pos = function XH -> 1 | XO p -> 2 * int_of_pos p | XI p -> 2 * int_of_pos p + 1
let int_of_n = function N0 -> 0 | Npos p -> int_of_pos p
let rec int_of_nat = function O -> 0 | S n -> 1 + int_of_nat n
let unhex s = List.init (String.length s / 2) (fun i -> int_of_string ("0x" ^ String.sub s (2*i) 2))
let groups_of s = let b = Array.of_list (unhex s) in List.init 8 (fun i -> n_of_int (b.(2*i) * 256 + b.(2*i+1)))
let hexg gs = String.concat "" (List.map (fun x -> Printf.sprintf "%04x" (int_of_n x)) gs)
let implode l = String.concat "" (List.map (fun b -> String.make 1 (Char.chr (int_of_b b))) l)
let () =
  try while true do
    let l = input_line stdin in
    match String.split_on_char ' ' l with
    | ["ntop"; h] ->
        let gs = groups_of h in
        let t = ntop gs in
        let ts = implode t in
        (* model's own parser on the model's text, the reference parser, and print-parse-print *)
        let own = (match pton t false false with
                   | Res (r, _, g2) -> Printf.sprintf "own=%d %s again=%s" (int_of_nat r) (hexg g2) (implode (ntop g2))
                   | Unspec -> "own=unspec") in
        let rf = (match ref_pton t with Some g2 -> "ref=" ^ hexg g2 | None -> "ref=none") in
        Printf.printf "ntop %d %s %s %s\n" (String.length ts) ts own rf
    | "pton" :: ub :: tr :: rest ->
        let s = List.map b_of_int (unhex (match rest with [x] -> x | _ -> "")) in
        let rf = (match ref_pton s with Some g2 -> "ref=" ^ hexg g2 | None -> "ref=none") in
        (match pton s (ub = "1") (tr = "1") with
         | Unspec -> Printf.printf "pton unspec %s\n" rf
         | Res (r, bits, gs) -> Printf.printf "pton %d %d %s %s\n" (int_of_nat r) (match bits with Some b -> int_of_n b | None -> 777) (hexg gs) rf)
    | ["mask"; a; m; b] -> Printf.printf "mask %d\n" (if cm (groups_of a) (groups_of m) (n_of_int (int_of_string b)) then 1 else 0)
    | _ -> print_endline "?"
  done with End_of_file -> ()
