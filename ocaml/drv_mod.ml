(* Driver for the extracted module loader model (C20).  stdin lines:  n ; deps of 0 ; deps of 1 ; ... ; listing
   e.g. "4;1,2;3;3;;0"  -> prints the event log "CB0 CB1 ... DT3" or ABORT, and the verdict of the extracted C20 monitor *)
open Mod_model
let rec nat_of_int n = if n <= 0 then O else S (nat_of_int (n - 1))
let rec int_of_nat = function O -> 0 | S n -> 1 + int_of_nat n
let ints s = if s = "" then [] else List.map (fun x -> nat_of_int (int_of_string x)) (String.split_on_char ',' s)
let ev = function CB m -> Printf.sprintf "CB%d" (int_of_nat m) | CE m -> Printf.sprintf "CE%d" (int_of_nat m)
                | PI m -> Printf.sprintf "PI%d" (int_of_nat m) | DT m -> Printf.sprintf "DT%d" (int_of_nat m)
let () =
  try while true do
    let l = input_line stdin in
    match String.split_on_char ';' l with
    | "A" :: ns :: rest ->
        (* graphs with back-end declarations:  A ; n ; deps of 0..n-1 ; anti of 0..n-1 ; listing   -> the run of ModAnti.run2 true *)
        let n = int_of_string ns in
        let deps = Array.make (n + 1) [] and anti = Array.make (n + 1) [] in
        List.iteri (fun i s -> if i < n then deps.(i) <- ints s else if i < 2 * n then anti.(i - n) <- ints s) rest;
        let listing = ints (List.nth rest (2 * n)) in
        (* optional last field: the backends of the core (module_is_backend); the run is ModBackend.run3 true *)
        let bks = if List.length rest > 2 * n + 1 then List.map int_of_nat (ints (List.nth rest (2 * n + 1))) else [] in
        let g m = let i = int_of_nat m in if i < n then deps.(i) else [] in
        let a m = let i = int_of_nat m in if i < n then anti.(i) else [] in
        let bk m = List.mem (int_of_nat m) bks in
        (match run3 true (nat_of_int n) g a bk listing with
         | None -> Printf.printf "ABORT\n"
         | Some lg -> Printf.printf "%s\n" (String.concat " " (List.map ev lg)))
    | ns :: rest ->
        let n = int_of_string ns in
        let deps = Array.make (n + 1) [] in
        List.iteri (fun i s -> if i < n then deps.(i) <- ints s) rest;
        let listing = ints (List.nth rest n) in
        let g m = let i = int_of_nat m in if i < n then deps.(i) else [] in
        let nn = nat_of_int n in
        let mon = monitor nn g listing in
        (match run nn g listing with
         | None -> Printf.printf "ABORT mon=%b\n" mon
         | Some lg -> Printf.printf "%s mon=%b\n" (String.concat " " (List.map ev lg)) mon)
    | _ -> ()
  done with End_of_file -> ()
