(* Driver for the extracted configuration model (C14-C16).
   drv_conf parse FILE...      : parse each file into an empty tree and dump it (or LOAD ERR); cases closed by "=="
   drv_conf script CASEFILE    : scripts of registrations, loads and dumps (see lib/conf_common.py); cases closed by "==" *)
open Conf_model
let b_of_char (c : char) : byte = Obj.magic (Char.code c)
let char_of_b (b : byte) : char = Char.chr (Obj.magic b : int)
let explode s = List.init (String.length s) (fun i -> b_of_char s.[i])
let implode l = let b = Buffer.create 64 in List.iter (fun x -> Buffer.add_char b (char_of_b x)) l; Buffer.contents b
let rec pos_of_int n = if n = 1 then XH else if n land 1 = 0 then XO (pos_of_int (n lsr 1)) else XI (pos_of_int (n lsr 1))
let n_of_int n = if n = 0 then N0 else Npos (pos_of_int n)
let unhex s = String.init (String.length s / 2) (fun i -> Char.chr (int_of_string ("0x" ^ String.sub s (2*i) 2)))
let opt s = if s = "-" then None else Some (explode s)
let read_file f = let ic = open_in_bin f in let n = in_channel_length ic in let s = really_input_string ic n in close_in ic; s
let () =
  match Array.to_list Sys.argv with
  | _ :: "parse" :: files ->
      List.iter (fun f -> List.iter (fun l -> print_endline (implode l)) (load_dump (explode (read_file f))); print_endline "==") files
  | [_; "script"; casefile] ->
      let ic = open_in casefile in
      let cmds = ref [] in
      let flush () = List.iter (fun l -> print_endline (implode l)) (script (List.rev !cmds)); print_endline "=="; cmds := [] in
      (try while true do
        let l = input_line ic in
        match String.split_on_char ' ' l with
        | ["CASE"] -> ()
        | ["ENDCASE"] -> flush ()
        | ["R"; "obj"; n] -> cmds := CReg (RegObj (explode n)) :: !cmds
        | ["R"; "str"; n; sub; d] -> cmds := CReg (RegStr (explode n, n_of_int (int_of_string sub), opt d)) :: !cmds
        | "R" :: "list" :: n :: ds -> cmds := CReg (RegList (explode n, List.map explode (List.filter (fun x -> x <> "") ds))) :: !cmds
        | ["R"; "ina"; n; h; s] -> cmds := CReg (RegIna (explode n, opt h, opt s)) :: !cmds
        | ["L"; hx] -> cmds := CLoad (explode (unhex hx)) :: !cmds
        | ["L"] -> cmds := CLoad [] :: !cmds
        | ["D"] -> cmds := CDump :: !cmds
        | ["H"] -> cmds := CHookAll :: !cmds
        | _ -> failwith ("bad " ^ l)
      done with End_of_file -> ())
  | _ -> prerr_endline "usage: drv_conf parse FILE... | script CASEFILE"; exit 2
